//! RFC 9113 frame layer, written from the RFC text (sections 4 and 6), independent of h2's `src/frame`.

pub const PREFACE: &[u8] = b"PRI * HTTP/2.0\r\n\r\nSM\r\n\r\n";
pub const HEAD_LEN: usize = 9;

pub mod ty {
    pub const DATA: u8 = 0;
    pub const HEADERS: u8 = 1;
    pub const PRIORITY: u8 = 2;
    pub const RST_STREAM: u8 = 3;
    pub const SETTINGS: u8 = 4;
    pub const PUSH_PROMISE: u8 = 5;
    pub const PING: u8 = 6;
    pub const GOAWAY: u8 = 7;
    pub const WINDOW_UPDATE: u8 = 8;
    pub const CONTINUATION: u8 = 9;
}

pub mod flag {
    pub const END_STREAM: u8 = 0x1;
    pub const ACK: u8 = 0x1;
    pub const END_HEADERS: u8 = 0x4;
    pub const PADDED: u8 = 0x8;
    pub const PRIORITY: u8 = 0x20;
}

pub mod setting {
    pub const HEADER_TABLE_SIZE: u16 = 1;
    pub const ENABLE_PUSH: u16 = 2;
    pub const MAX_CONCURRENT_STREAMS: u16 = 3;
    pub const INITIAL_WINDOW_SIZE: u16 = 4;
    pub const MAX_FRAME_SIZE: u16 = 5;
    pub const MAX_HEADER_LIST_SIZE: u16 = 6;
    pub const ENABLE_CONNECT_PROTOCOL: u16 = 8;
}

pub mod code {
    pub const NO_ERROR: u32 = 0;
    pub const PROTOCOL_ERROR: u32 = 1;
    pub const INTERNAL_ERROR: u32 = 2;
    pub const FLOW_CONTROL_ERROR: u32 = 3;
    pub const SETTINGS_TIMEOUT: u32 = 4;
    pub const STREAM_CLOSED: u32 = 5;
    pub const FRAME_SIZE_ERROR: u32 = 6;
    pub const REFUSED_STREAM: u32 = 7;
    pub const CANCEL: u32 = 8;
    pub const COMPRESSION_ERROR: u32 = 9;
    pub const CONNECT_ERROR: u32 = 10;
    pub const ENHANCE_YOUR_CALM: u32 = 11;
}

pub fn type_name(t: u8) -> &'static str {
    match t {
        0 => "DATA",
        1 => "HEADERS",
        2 => "PRIORITY",
        3 => "RST_STREAM",
        4 => "SETTINGS",
        5 => "PUSH_PROMISE",
        6 => "PING",
        7 => "GOAWAY",
        8 => "WINDOW_UPDATE",
        9 => "CONTINUATION",
        _ => "UNKNOWN",
    }
}

/// A frame as it is on the wire. `sid` holds all 32 bits (reserved bit included).
#[derive(Clone, Debug, PartialEq, Eq, Hash)]
pub struct RawFrame {
    pub ty: u8,
    pub flags: u8,
    pub sid: u32,
    pub payload: Vec<u8>,
    /// If set, the length field written differs from `payload.len()`.
    pub declared_len: Option<u32>,
}

impl RawFrame {
    pub fn new(ty: u8, flags: u8, sid: u32, payload: Vec<u8>) -> RawFrame {
        RawFrame { ty, flags, sid, payload, declared_len: None }
    }
    pub fn stream(&self) -> u32 {
        self.sid & 0x7fff_ffff
    }
    pub fn len(&self) -> u32 {
        self.declared_len.unwrap_or(self.payload.len() as u32)
    }
    pub fn has(&self, f: u8) -> bool {
        self.flags & f == f
    }
    pub fn encode(&self) -> Vec<u8> {
        let mut v = Vec::with_capacity(HEAD_LEN + self.payload.len());
        self.encode_into(&mut v);
        v
    }
    pub fn encode_into(&self, v: &mut Vec<u8>) {
        let l = self.len();
        v.push((l >> 16) as u8);
        v.push((l >> 8) as u8);
        v.push(l as u8);
        v.push(self.ty);
        v.push(self.flags);
        v.extend_from_slice(&self.sid.to_be_bytes());
        v.extend_from_slice(&self.payload);
    }
    pub fn short(&self) -> String {
        let mut s = format!("{}[sid={} fl={:#x} len={}]", type_name(self.ty), self.stream(), self.flags, self.payload.len());
        match self.parse() {
            Ok(Parsed::RstStream { code, .. }) => s.push_str(&format!(" code={}", code)),
            Ok(Parsed::GoAway { last, code, .. }) => s.push_str(&format!(" last={} code={}", last, code)),
            Ok(Parsed::WindowUpdate { inc, .. }) => s.push_str(&format!(" inc={}", inc)),
            Ok(Parsed::Settings { ack, ref params }) => s.push_str(&format!(" ack={} {:?}", ack, params)),
            _ => {}
        }
        s
    }
}

// ---------------------------------------------------------------------------------------------
// constructors

pub fn data(sid: u32, body: &[u8], eos: bool) -> RawFrame {
    RawFrame::new(ty::DATA, if eos { flag::END_STREAM } else { 0 }, sid, body.to_vec())
}

pub fn data_padded(sid: u32, body: &[u8], pad: u8, eos: bool) -> RawFrame {
    let mut p = vec![pad];
    p.extend_from_slice(body);
    p.extend(std::iter::repeat(0).take(pad as usize));
    RawFrame::new(ty::DATA, flag::PADDED | if eos { flag::END_STREAM } else { 0 }, sid, p)
}

pub fn headers(sid: u32, block: &[u8], eos: bool, eh: bool) -> RawFrame {
    let mut f = 0;
    if eos {
        f |= flag::END_STREAM;
    }
    if eh {
        f |= flag::END_HEADERS;
    }
    RawFrame::new(ty::HEADERS, f, sid, block.to_vec())
}

pub fn headers_full(sid: u32, block: &[u8], eos: bool, eh: bool, pad: Option<u8>, prio: Option<(bool, u32, u8)>) -> RawFrame {
    let mut f = 0;
    if eos {
        f |= flag::END_STREAM;
    }
    if eh {
        f |= flag::END_HEADERS;
    }
    let mut p = vec![];
    if let Some(n) = pad {
        f |= flag::PADDED;
        p.push(n);
    }
    if let Some((excl, dep, w)) = prio {
        f |= flag::PRIORITY;
        let d = dep | if excl { 0x8000_0000 } else { 0 };
        p.extend_from_slice(&d.to_be_bytes());
        p.push(w);
    }
    p.extend_from_slice(block);
    if let Some(n) = pad {
        p.extend(std::iter::repeat(0).take(n as usize));
    }
    RawFrame::new(ty::HEADERS, f, sid, p)
}

pub fn continuation(sid: u32, block: &[u8], eh: bool) -> RawFrame {
    RawFrame::new(ty::CONTINUATION, if eh { flag::END_HEADERS } else { 0 }, sid, block.to_vec())
}

pub fn push_promise(sid: u32, promised: u32, block: &[u8], eh: bool) -> RawFrame {
    let mut p = promised.to_be_bytes().to_vec();
    p.extend_from_slice(block);
    RawFrame::new(ty::PUSH_PROMISE, if eh { flag::END_HEADERS } else { 0 }, sid, p)
}

pub fn priority(sid: u32, excl: bool, dep: u32, weight: u8) -> RawFrame {
    let d = dep | if excl { 0x8000_0000 } else { 0 };
    let mut p = d.to_be_bytes().to_vec();
    p.push(weight);
    RawFrame::new(ty::PRIORITY, 0, sid, p)
}

pub fn rst_stream(sid: u32, code: u32) -> RawFrame {
    RawFrame::new(ty::RST_STREAM, 0, sid, code.to_be_bytes().to_vec())
}

pub fn settings(params: &[(u16, u32)]) -> RawFrame {
    let mut p = vec![];
    for &(k, v) in params {
        p.extend_from_slice(&k.to_be_bytes());
        p.extend_from_slice(&v.to_be_bytes());
    }
    RawFrame::new(ty::SETTINGS, 0, 0, p)
}

pub fn settings_ack() -> RawFrame {
    RawFrame::new(ty::SETTINGS, flag::ACK, 0, vec![])
}

pub fn ping(payload: [u8; 8], ack: bool) -> RawFrame {
    RawFrame::new(ty::PING, if ack { flag::ACK } else { 0 }, 0, payload.to_vec())
}

pub fn goaway(last: u32, code: u32, debug: &[u8]) -> RawFrame {
    let mut p = last.to_be_bytes().to_vec();
    p.extend_from_slice(&code.to_be_bytes());
    p.extend_from_slice(debug);
    RawFrame::new(ty::GOAWAY, 0, 0, p)
}

pub fn window_update(sid: u32, inc: u32) -> RawFrame {
    RawFrame::new(ty::WINDOW_UPDATE, 0, sid, inc.to_be_bytes().to_vec())
}

// ---------------------------------------------------------------------------------------------
// structured view

#[derive(Clone, Debug, PartialEq, Eq, Hash)]
pub struct Prio {
    pub exclusive: bool,
    pub dep: u32,
    pub weight: u8,
}

#[derive(Clone, Debug, PartialEq, Eq, Hash)]
pub enum Parsed {
    Data { sid: u32, data: Vec<u8>, pad: Option<u8>, eos: bool },
    Headers { sid: u32, frag: Vec<u8>, eos: bool, eh: bool, pad: Option<u8>, prio: Option<Prio> },
    Priority { sid: u32, prio: Prio },
    RstStream { sid: u32, code: u32 },
    Settings { ack: bool, params: Vec<(u16, u32)> },
    PushPromise { sid: u32, promised: u32, frag: Vec<u8>, eh: bool, pad: Option<u8> },
    Ping { ack: bool, payload: [u8; 8] },
    GoAway { last: u32, code: u32, debug: Vec<u8> },
    WindowUpdate { sid: u32, inc: u32 },
    Continuation { sid: u32, frag: Vec<u8>, eh: bool },
    Unknown { ty: u8, sid: u32 },
}

/// Frame-local defects (those that can be decided from the frame alone), with the error scope the
/// RFC assigns. State-dependent rules live in `automaton`.
#[derive(Clone, Copy, Debug, PartialEq, Eq, Hash)]
pub enum Defect {
    /// connection error FRAME_SIZE_ERROR (fixed-size frames with the wrong size, SETTINGS % 6, ACK with payload)
    FrameSizeConn,
    /// stream error FRAME_SIZE_ERROR (PRIORITY, RST_STREAM length is conn per 9113; PRIORITY != 5 is stream)
    FrameSizeStream,
    /// connection error PROTOCOL_ERROR (stream id 0 where forbidden, non-zero where required, pad >= len, ...)
    ProtocolConn,
    /// stream error PROTOCOL_ERROR (self-dependency, WINDOW_UPDATE 0 on a stream)
    ProtocolStream,
    /// connection error FLOW_CONTROL_ERROR (INITIAL_WINDOW_SIZE > 2^31-1)
    FlowControlConn,
}

impl RawFrame {
    /// Interpret a frame whose payload is complete (`declared_len` ignored).
    pub fn parse(&self) -> Result<Parsed, Defect> {
        let sid = self.stream();
        let p = &self.payload[..];
        match self.ty {
            ty::DATA => {
                if sid == 0 {
                    return Err(Defect::ProtocolConn);
                }
                let (body, pad) = strip_padding(self.flags, p)?;
                Ok(Parsed::Data { sid, data: body.to_vec(), pad, eos: self.has(flag::END_STREAM) })
            }
            ty::HEADERS => {
                if sid == 0 {
                    return Err(Defect::ProtocolConn);
                }
                let (mut body, pad) = strip_padding(self.flags, p)?;
                let mut prio = None;
                if self.has(flag::PRIORITY) {
                    if body.len() < 5 {
                        return Err(Defect::FrameSizeConn);
                    }
                    let d = u32::from_be_bytes([body[0], body[1], body[2], body[3]]);
                    let pr = Prio { exclusive: d >> 31 == 1, dep: d & 0x7fff_ffff, weight: body[4] };
                    if pr.dep == sid {
                        return Err(Defect::ProtocolStream);
                    }
                    prio = Some(pr);
                    body = &body[5..];
                }
                Ok(Parsed::Headers {
                    sid,
                    frag: body.to_vec(),
                    eos: self.has(flag::END_STREAM),
                    eh: self.has(flag::END_HEADERS),
                    pad,
                    prio,
                })
            }
            ty::PRIORITY => {
                if sid == 0 {
                    return Err(Defect::ProtocolConn);
                }
                if p.len() != 5 {
                    return Err(Defect::FrameSizeStream);
                }
                let d = u32::from_be_bytes([p[0], p[1], p[2], p[3]]);
                let pr = Prio { exclusive: d >> 31 == 1, dep: d & 0x7fff_ffff, weight: p[4] };
                if pr.dep == sid {
                    return Err(Defect::ProtocolStream);
                }
                Ok(Parsed::Priority { sid, prio: pr })
            }
            ty::RST_STREAM => {
                if p.len() != 4 {
                    return Err(Defect::FrameSizeConn);
                }
                if sid == 0 {
                    return Err(Defect::ProtocolConn);
                }
                Ok(Parsed::RstStream { sid, code: u32::from_be_bytes([p[0], p[1], p[2], p[3]]) })
            }
            ty::SETTINGS => {
                if sid != 0 {
                    return Err(Defect::ProtocolConn);
                }
                let ack = self.has(flag::ACK);
                if ack && !p.is_empty() {
                    return Err(Defect::FrameSizeConn);
                }
                if p.len() % 6 != 0 {
                    return Err(Defect::FrameSizeConn);
                }
                let mut params = vec![];
                for c in p.chunks(6) {
                    let k = u16::from_be_bytes([c[0], c[1]]);
                    let v = u32::from_be_bytes([c[2], c[3], c[4], c[5]]);
                    match k {
                        setting::ENABLE_PUSH if v > 1 => return Err(Defect::ProtocolConn),
                        setting::INITIAL_WINDOW_SIZE if v > 0x7fff_ffff => return Err(Defect::FlowControlConn),
                        setting::MAX_FRAME_SIZE if !(16384..=16_777_215).contains(&v) => return Err(Defect::ProtocolConn),
                        setting::ENABLE_CONNECT_PROTOCOL if v > 1 => return Err(Defect::ProtocolConn),
                        _ => {}
                    }
                    params.push((k, v));
                }
                Ok(Parsed::Settings { ack, params })
            }
            ty::PUSH_PROMISE => {
                if sid == 0 {
                    return Err(Defect::ProtocolConn);
                }
                let (body, pad) = strip_padding(self.flags, p)?;
                if body.len() < 4 {
                    return Err(Defect::FrameSizeConn);
                }
                let promised = u32::from_be_bytes([body[0], body[1], body[2], body[3]]) & 0x7fff_ffff;
                Ok(Parsed::PushPromise { sid, promised, frag: body[4..].to_vec(), eh: self.has(flag::END_HEADERS), pad })
            }
            ty::PING => {
                if p.len() != 8 {
                    return Err(Defect::FrameSizeConn);
                }
                if sid != 0 {
                    return Err(Defect::ProtocolConn);
                }
                let mut b = [0u8; 8];
                b.copy_from_slice(p);
                Ok(Parsed::Ping { ack: self.has(flag::ACK), payload: b })
            }
            ty::GOAWAY => {
                if sid != 0 {
                    return Err(Defect::ProtocolConn);
                }
                if p.len() < 8 {
                    return Err(Defect::FrameSizeConn);
                }
                Ok(Parsed::GoAway {
                    last: u32::from_be_bytes([p[0], p[1], p[2], p[3]]) & 0x7fff_ffff,
                    code: u32::from_be_bytes([p[4], p[5], p[6], p[7]]),
                    debug: p[8..].to_vec(),
                })
            }
            ty::WINDOW_UPDATE => {
                if p.len() != 4 {
                    return Err(Defect::FrameSizeConn);
                }
                let inc = u32::from_be_bytes([p[0], p[1], p[2], p[3]]) & 0x7fff_ffff;
                if inc == 0 {
                    return Err(if sid == 0 { Defect::ProtocolConn } else { Defect::ProtocolStream });
                }
                Ok(Parsed::WindowUpdate { sid, inc })
            }
            ty::CONTINUATION => {
                if sid == 0 {
                    return Err(Defect::ProtocolConn);
                }
                Ok(Parsed::Continuation { sid, frag: p.to_vec(), eh: self.has(flag::END_HEADERS) })
            }
            t => Ok(Parsed::Unknown { ty: t, sid }),
        }
    }

    /// Number of octets this frame counts against flow control (DATA: whole payload incl. padding).
    pub fn flow_len(&self) -> u32 {
        if self.ty == ty::DATA {
            self.payload.len() as u32
        } else {
            0
        }
    }
}

fn strip_padding(flags: u8, p: &[u8]) -> Result<(&[u8], Option<u8>), Defect> {
    if flags & flag::PADDED != 0 {
        if p.is_empty() {
            return Err(Defect::FrameSizeConn);
        }
        let n = p[0] as usize;
        if n >= p.len() {
            // "If the length of the padding is the length of the frame payload or greater" -> PROTOCOL_ERROR
            return Err(Defect::ProtocolConn);
        }
        Ok((&p[1..p.len() - n], Some(p[0])))
    } else {
        Ok((p, None))
    }
}

// ---------------------------------------------------------------------------------------------
// incremental parser

/// Byte-fed frame splitter. Never rejects anything: it only splits by the length field.
#[derive(Clone, Debug, Default)]
pub struct FrameParser {
    buf: Vec<u8>,
    /// number of bytes of the stream consumed by completed frames (and preface, if expected)
    pub consumed: u64,
    /// total bytes fed
    pub fed: u64,
    expect_preface: bool,
    pub preface_ok: Option<bool>,
}

impl FrameParser {
    pub fn new(expect_preface: bool) -> FrameParser {
        FrameParser { buf: vec![], consumed: 0, fed: 0, expect_preface, preface_ok: None }
    }
    pub fn feed(&mut self, b: &[u8]) {
        self.buf.extend_from_slice(b);
        self.fed += b.len() as u64;
    }
    pub fn pending_bytes(&self) -> usize {
        self.buf.len()
    }
    pub fn pending(&self) -> &[u8] {
        &self.buf
    }
    /// Head of a frame whose payload is not complete yet: (declared_len, type, flags, sid)
    pub fn partial_head(&self) -> Option<(u32, u8, u8, u32)> {
        if self.expect_preface || self.buf.len() < HEAD_LEN {
            return None;
        }
        let b = &self.buf;
        Some((
            ((b[0] as u32) << 16) | ((b[1] as u32) << 8) | b[2] as u32,
            b[3],
            b[4],
            u32::from_be_bytes([b[5], b[6], b[7], b[8]]),
        ))
    }
    pub fn next(&mut self) -> Option<RawFrame> {
        if self.expect_preface {
            if self.buf.len() < PREFACE.len() {
                if !PREFACE.starts_with(&self.buf) {
                    self.preface_ok = Some(false);
                }
                return None;
            }
            self.preface_ok = Some(&self.buf[..PREFACE.len()] == PREFACE);
            self.buf.drain(..PREFACE.len());
            self.consumed += PREFACE.len() as u64;
            self.expect_preface = false;
        }
        if self.buf.len() < HEAD_LEN {
            return None;
        }
        let b = &self.buf;
        let len = ((b[0] as usize) << 16) | ((b[1] as usize) << 8) | b[2] as usize;
        if self.buf.len() < HEAD_LEN + len {
            return None;
        }
        let f = RawFrame {
            ty: b[3],
            flags: b[4],
            sid: u32::from_be_bytes([b[5], b[6], b[7], b[8]]),
            payload: b[HEAD_LEN..HEAD_LEN + len].to_vec(),
            declared_len: None,
        };
        self.buf.drain(..HEAD_LEN + len);
        self.consumed += (HEAD_LEN + len) as u64;
        Some(f)
    }
}

pub fn parse_all(bytes: &[u8], expect_preface: bool) -> (Vec<RawFrame>, usize) {
    let mut p = FrameParser::new(expect_preface);
    p.feed(bytes);
    let mut v = vec![];
    while let Some(f) = p.next() {
        v.push(f);
    }
    (v, p.pending_bytes())
}
