//! Independent reference components for checking an HTTP/2 implementation from the outside.
pub mod frame;
pub mod hpack;
pub mod huffman_table;
