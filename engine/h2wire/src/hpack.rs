//! RFC 7541 reference decoder / encoder, written from the RFC text, independent of h2's `src/hpack`.
//! Deliberately boring: vectors, linear scans, a bit-at-a-time Huffman walk.

use crate::huffman_table::HUFFMAN_CODES;
use std::collections::{HashMap, VecDeque};
use std::sync::OnceLock;

/// RFC 7541 Appendix A.
pub const STATIC_TABLE: [(&str, &str); 61] = [
    (":authority", ""),
    (":method", "GET"),
    (":method", "POST"),
    (":path", "/"),
    (":path", "/index.html"),
    (":scheme", "http"),
    (":scheme", "https"),
    (":status", "200"),
    (":status", "204"),
    (":status", "206"),
    (":status", "304"),
    (":status", "400"),
    (":status", "404"),
    (":status", "500"),
    ("accept-charset", ""),
    ("accept-encoding", "gzip, deflate"),
    ("accept-language", ""),
    ("accept-ranges", ""),
    ("accept", ""),
    ("access-control-allow-origin", ""),
    ("age", ""),
    ("allow", ""),
    ("authorization", ""),
    ("cache-control", ""),
    ("content-disposition", ""),
    ("content-encoding", ""),
    ("content-language", ""),
    ("content-length", ""),
    ("content-location", ""),
    ("content-range", ""),
    ("content-type", ""),
    ("cookie", ""),
    ("date", ""),
    ("etag", ""),
    ("expect", ""),
    ("expires", ""),
    ("from", ""),
    ("host", ""),
    ("if-match", ""),
    ("if-modified-since", ""),
    ("if-none-match", ""),
    ("if-range", ""),
    ("if-unmodified-since", ""),
    ("last-modified", ""),
    ("link", ""),
    ("location", ""),
    ("max-forwards", ""),
    ("proxy-authenticate", ""),
    ("proxy-authorization", ""),
    ("range", ""),
    ("referer", ""),
    ("refresh", ""),
    ("retry-after", ""),
    ("server", ""),
    ("set-cookie", ""),
    ("strict-transport-security", ""),
    ("transfer-encoding", ""),
    ("user-agent", ""),
    ("vary", ""),
    ("via", ""),
    ("www-authenticate", ""),
];

pub type Field = (Vec<u8>, Vec<u8>);

#[derive(Clone, Copy, Debug, PartialEq, Eq, Hash)]
pub enum HpackError {
    /// the block ends inside a representation
    Truncated,
    /// index 0 or beyond static + dynamic table
    BadIndex,
    /// size update above the limit, or not at the start of the block
    BadSizeUpdate,
    /// Huffman string with EOS inside, padding > 7 bits or padding not all ones
    BadHuffman,
    /// integer that does not fit 2^32-1 ("integer encodings that exceed implementation limits")
    IntegerOverflow,
}

// ---------------------------------------------------------------------------------------------
// Huffman

const LEAF: u32 = 0x8000_0000;

/// Binary code tree: node i has children `[zero, one]`; a child with the LEAF bit set is a symbol.
fn huff_tree() -> &'static Vec<[u32; 2]> {
    static T: OnceLock<Vec<[u32; 2]>> = OnceLock::new();
    T.get_or_init(|| {
        let mut t: Vec<[u32; 2]> = vec![[0, 0]];
        for (sym, &(code, bits)) in HUFFMAN_CODES.iter().enumerate() {
            let mut node = 0usize;
            for i in (0..bits).rev() {
                let bit = ((code >> i) & 1) as usize;
                if i == 0 {
                    assert_eq!(t[node][bit], 0, "code collision");
                    t[node][bit] = LEAF | sym as u32;
                } else {
                    if t[node][bit] == 0 {
                        t.push([0, 0]);
                        let n = (t.len() - 1) as u32;
                        t[node][bit] = n;
                    }
                    assert!(t[node][bit] & LEAF == 0, "code is a prefix of another");
                    node = t[node][bit] as usize;
                }
            }
        }
        t
    })
}

/// Structural validation of the static copy of the code table (Kraft equality, prefix-freeness, canonical
/// ordering within a length). Returns an error text if the table is not a complete prefix code.
pub fn validate_huffman_table() -> Result<(), String> {
    // Kraft sum == 1 for a complete prefix code
    let mut sum: u128 = 0;
    for &(_, bits) in HUFFMAN_CODES.iter() {
        if bits < 5 || bits > 30 {
            return Err(format!("code length {} out of range", bits));
        }
        sum += 1u128 << (32 - bits as u32);
    }
    if sum != 1u128 << 32 {
        return Err(format!("Kraft sum {} != 2^32", sum));
    }
    // prefix-free
    let mut v: Vec<(u32, u8)> = HUFFMAN_CODES.iter().map(|&(c, b)| (c << (32 - b as u32), b)).collect();
    v.sort();
    for w in v.windows(2) {
        let (a, ab) = w[0];
        let (b, _) = w[1];
        if a == b {
            return Err("duplicate code".into());
        }
        let mask = !0u32 << (32 - ab as u32);
        if a & mask == b & mask {
            return Err("code is a prefix of another".into());
        }
    }
    // canonical: within one length codes increase with symbol value; EOS is all ones
    let mut last: HashMap<u8, u32> = HashMap::new();
    for &(c, b) in HUFFMAN_CODES.iter() {
        if let Some(&p) = last.get(&b) {
            if c <= p {
                return Err("codes of equal length not increasing".into());
            }
        }
        last.insert(b, c);
    }
    if HUFFMAN_CODES[256] != (0x3fff_ffff, 30) {
        return Err("EOS is not 30 ones".into());
    }
    Ok(())
}

pub fn huff_encode(src: &[u8]) -> Vec<u8> {
    let mut out = vec![];
    let mut acc: u64 = 0;
    let mut n: u32 = 0;
    for &b in src {
        let (code, bits) = HUFFMAN_CODES[b as usize];
        acc = (acc << bits) | code as u64;
        n += bits as u32;
        while n >= 8 {
            out.push((acc >> (n - 8)) as u8);
            n -= 8;
        }
        acc &= (1u64 << n) - 1;
    }
    if n > 0 {
        let pad = 8 - n;
        out.push(((acc << pad) | ((1u64 << pad) - 1)) as u8);
    }
    out
}

/// Encode a sequence of symbols (0..=256, 256 = EOS) and append `pad_bits` explicit padding bits taken from
/// `pad_pattern` (LSB-aligned), then fill to a byte boundary with ones only if `fill` is set; returns None if not byte aligned.
pub fn huff_encode_symbols(syms: &[u16], extra_bits: u32, extra_pattern: u32) -> Option<Vec<u8>> {
    let mut bits: Vec<bool> = vec![];
    for &s in syms {
        let (code, n) = HUFFMAN_CODES[s as usize];
        for i in (0..n).rev() {
            bits.push((code >> i) & 1 == 1);
        }
    }
    for i in (0..extra_bits).rev() {
        bits.push((extra_pattern >> i) & 1 == 1);
    }
    if bits.len() % 8 != 0 {
        return None;
    }
    Some(bits.chunks(8).map(|c| c.iter().fold(0u8, |a, &b| (a << 1) | b as u8)).collect())
}

pub fn huff_decode(src: &[u8]) -> Result<Vec<u8>, HpackError> {
    let t = huff_tree();
    let mut out = vec![];
    let mut node = 0usize;
    // bits consumed since the last complete symbol, and whether they were all ones
    let mut n = 0u32;
    let mut all_ones = true;
    for &byte in src {
        for i in (0..8).rev() {
            let bit = ((byte >> i) & 1) as usize;
            n += 1;
            all_ones &= bit == 1;
            let c = t[node][bit];
            if c & LEAF != 0 {
                let sym = c & !LEAF;
                if sym == 256 {
                    // "A Huffman-encoded string literal containing the EOS symbol MUST be treated as a decoding error."
                    return Err(HpackError::BadHuffman);
                }
                out.push(sym as u8);
                node = 0;
                n = 0;
                all_ones = true;
            } else {
                assert!(c != 0, "incomplete code tree");
                node = c as usize;
            }
        }
    }
    // "A padding strictly longer than 7 bits MUST be treated as a decoding error. A padding not corresponding to the
    // most significant bits of the code for the EOS symbol MUST be treated as a decoding error."
    if n > 7 || !all_ones {
        return Err(HpackError::BadHuffman);
    }
    Ok(out)
}

// ---------------------------------------------------------------------------------------------
// primitives

/// RFC 7541 section 5.1. Returns (value, octets consumed). `None` = ran out of input.
/// Values are accumulated in u64 and saturate; anything >= 2^32 is reported as overflow by the callers.
pub fn decode_int(buf: &[u8], prefix_bits: u8) -> Result<Option<(u64, usize)>, HpackError> {
    if buf.is_empty() {
        return Ok(None);
    }
    let mask = ((1u16 << prefix_bits) - 1) as u8;
    let first = (buf[0] & mask) as u128;
    if first < mask as u128 {
        return Ok(Some((first as u64, 1)));
    }
    let mut v: u128 = first;
    let mut shift = 0u32;
    let mut i = 1;
    loop {
        if i >= buf.len() {
            return Ok(None);
        }
        let b = buf[i];
        i += 1;
        v += ((b & 0x7f) as u128) << shift; // shift <= 7 * 15 = 105, no overflow in u128
        shift += 7;
        if b & 0x80 == 0 {
            return Ok(Some((v.min(u64::MAX as u128) as u64, i)));
        }
        if i > 16 {
            // continuation octets without end: beyond any sane implementation limit
            return Err(HpackError::IntegerOverflow);
        }
    }
}

pub fn encode_int(out: &mut Vec<u8>, prefix_bits: u8, first_flags: u8, mut v: u64) {
    let mask = ((1u16 << prefix_bits) - 1) as u64;
    if v < mask {
        out.push(first_flags | v as u8);
        return;
    }
    out.push(first_flags | mask as u8);
    v -= mask;
    while v >= 128 {
        out.push((v % 128) as u8 | 0x80);
        v /= 128;
    }
    out.push(v as u8);
}

pub fn encode_str(out: &mut Vec<u8>, s: &[u8], huffman: bool) {
    if huffman {
        let h = huff_encode(s);
        encode_int(out, 7, 0x80, h.len() as u64);
        out.extend_from_slice(&h);
    } else {
        encode_int(out, 7, 0, s.len() as u64);
        out.extend_from_slice(s);
    }
}

// ---------------------------------------------------------------------------------------------
// representation builders (for the scripted peer and the input catalogues)

pub fn rep_indexed(i: u64) -> Vec<u8> {
    let mut o = vec![];
    encode_int(&mut o, 7, 0x80, i);
    o
}
#[derive(Clone, Copy, Debug, PartialEq, Eq, Hash)]
pub enum Lit {
    Incremental,
    Without,
    Never,
}
pub fn rep_literal(kind: Lit, name_idx: u64, name: &[u8], value: &[u8], huff_name: bool, huff_value: bool) -> Vec<u8> {
    let mut o = vec![];
    let (bits, fl) = match kind {
        Lit::Incremental => (6, 0x40),
        Lit::Without => (4, 0x00),
        Lit::Never => (4, 0x10),
    };
    encode_int(&mut o, bits, fl, name_idx);
    if name_idx == 0 {
        encode_str(&mut o, name, huff_name);
    }
    encode_str(&mut o, value, huff_value);
    o
}
pub fn rep_size_update(n: u64) -> Vec<u8> {
    let mut o = vec![];
    encode_int(&mut o, 5, 0x20, n);
    o
}

/// Trivial encoder: every field as a literal (new name), no dynamic-table use unless `index` is set.
pub fn encode_block(fields: &[(&[u8], &[u8])], huffman: bool, index: bool) -> Vec<u8> {
    let mut o = vec![];
    for (n, v) in fields {
        o.extend(rep_literal(if index { Lit::Incremental } else { Lit::Without }, 0, n, v, huffman, huffman));
    }
    o
}

// ---------------------------------------------------------------------------------------------
// decoder

#[derive(Clone, Debug)]
pub struct RefDecoder {
    pub table: VecDeque<Field>,
    pub size: usize,
    pub max_size: usize,
    /// SETTINGS_HEADER_TABLE_SIZE we advertised (upper limit for size updates)
    pub limit: usize,
    /// largest number of octets used by any integer in the last decoded block
    pub last_max_int_octets: usize,
    /// largest integer value seen in the last decoded block
    pub last_max_int: u64,
    /// high-water mark of `size` — must never exceed max_size
    pub violations: Vec<String>,
}

#[derive(Clone, Debug, PartialEq, Eq)]
pub struct DecodedBlock {
    pub fields: Vec<Field>,
    /// size updates seen at the start of the block
    pub size_updates: Vec<u64>,
}

pub fn entry_size(f: &Field) -> usize {
    f.0.len() + f.1.len() + 32
}

impl RefDecoder {
    pub fn new(limit: usize) -> RefDecoder {
        RefDecoder { table: VecDeque::new(), size: 0, max_size: limit, limit, last_max_int_octets: 0, last_max_int: 0, violations: vec![] }
    }

    /// The local endpoint changed SETTINGS_HEADER_TABLE_SIZE (and the peer acknowledged / may use it).
    pub fn set_limit(&mut self, limit: usize) {
        self.limit = limit;
    }

    pub fn get(&self, i: u64) -> Result<Field, HpackError> {
        if i == 0 {
            return Err(HpackError::BadIndex);
        }
        if i <= 61 {
            let (n, v) = STATIC_TABLE[i as usize - 1];
            return Ok((n.as_bytes().to_vec(), v.as_bytes().to_vec()));
        }
        match self.table.get((i - 62) as usize) {
            Some(f) => Ok(f.clone()),
            None => Err(HpackError::BadIndex),
        }
    }

    fn evict_to(&mut self, target: usize) {
        while self.size > target {
            let e = self.table.pop_back().expect("size > 0 with empty table");
            self.size -= entry_size(&e);
        }
    }

    fn insert(&mut self, f: Field) {
        let sz = entry_size(&f);
        if sz > self.max_size {
            // section 4.4: "an attempt to add an entry larger than the maximum size causes the table to be emptied"
            self.table.clear();
            self.size = 0;
            return;
        }
        self.evict_to(self.max_size - sz);
        self.size += sz;
        self.table.push_front(f);
    }

    fn int(&mut self, buf: &[u8], pos: &mut usize, prefix: u8) -> Result<u64, HpackError> {
        match decode_int(&buf[*pos..], prefix)? {
            None => Err(HpackError::Truncated),
            Some((v, n)) => {
                *pos += n;
                self.last_max_int_octets = self.last_max_int_octets.max(n);
                self.last_max_int = self.last_max_int.max(v);
                if v > u32::MAX as u64 {
                    return Err(HpackError::IntegerOverflow);
                }
                Ok(v)
            }
        }
    }

    fn string(&mut self, buf: &[u8], pos: &mut usize) -> Result<Vec<u8>, HpackError> {
        if *pos >= buf.len() {
            return Err(HpackError::Truncated);
        }
        let huff = buf[*pos] & 0x80 != 0;
        let len = self.int(buf, pos, 7)? as usize;
        if buf.len() - *pos < len {
            return Err(HpackError::Truncated);
        }
        let raw = &buf[*pos..*pos + len];
        *pos += len;
        if huff {
            huff_decode(raw)
        } else {
            Ok(raw.to_vec())
        }
    }

    /// Decode one complete header block. On error the decoder state is unspecified (connection error).
    pub fn decode_block(&mut self, buf: &[u8]) -> Result<DecodedBlock, HpackError> {
        let mut pos = 0;
        let mut fields = vec![];
        let mut size_updates = vec![];
        let mut seen_field = false;
        self.last_max_int_octets = 0;
        self.last_max_int = 0;
        while pos < buf.len() {
            let b = buf[pos];
            if b & 0x80 != 0 {
                let i = self.int(buf, &mut pos, 7)?;
                fields.push(self.get(i)?);
                seen_field = true;
            } else if b & 0xc0 == 0x40 || b & 0xf0 == 0x00 || b & 0xf0 == 0x10 {
                let (prefix, index) = if b & 0xc0 == 0x40 { (6, true) } else { (4, false) };
                let ni = self.int(buf, &mut pos, prefix)?;
                let name = if ni == 0 { self.string(buf, &mut pos)? } else { self.get(ni)?.0 };
                let value = self.string(buf, &mut pos)?;
                let f = (name, value);
                if index {
                    self.insert(f.clone());
                }
                fields.push(f);
                seen_field = true;
            } else {
                // 001xxxxx
                debug_assert!(b & 0xe0 == 0x20);
                let v = self.int(buf, &mut pos, 5)?;
                // section 4.2: "This dynamic table size update MUST occur at the beginning of the first header block
                // following the change"; section 6.3: "...MUST be lower than or equal to the limit"
                if seen_field {
                    return Err(HpackError::BadSizeUpdate);
                }
                if v as usize > self.limit {
                    return Err(HpackError::BadSizeUpdate);
                }
                self.max_size = v as usize;
                self.evict_to(self.max_size);
                size_updates.push(v);
            }
            if self.size > self.max_size {
                self.violations.push(format!("table size {} > max {}", self.size, self.max_size));
            }
        }
        Ok(DecodedBlock { fields, size_updates })
    }
}

/// RFC 7541 Appendix C examples (requests with and without Huffman, responses with eviction): used by self-validation.
pub fn self_test_appendix_c() -> Result<(), String> {
    fn hx(s: &str) -> Vec<u8> {
        let s: String = s.chars().filter(|c| !c.is_whitespace()).collect();
        (0..s.len()).step_by(2).map(|i| u8::from_str_radix(&s[i..i + 2], 16).unwrap()).collect()
    }
    fn f(n: &str, v: &str) -> Field {
        (n.as_bytes().to_vec(), v.as_bytes().to_vec())
    }
    // C.1 integers
    let mut o = vec![];
    encode_int(&mut o, 5, 0, 10);
    if o != [0x0a] {
        return Err("C.1.1".into());
    }
    let mut o = vec![];
    encode_int(&mut o, 5, 0, 1337);
    if o != [0x1f, 0x9a, 0x0a] {
        return Err("C.1.2".into());
    }
    if decode_int(&[0x1f, 0x9a, 0x0a], 5) != Ok(Some((1337, 3))) {
        return Err("C.1.2 decode".into());
    }
    // C.3 requests without Huffman
    let mut d = RefDecoder::new(4096);
    let r = d.decode_block(&hx("8286 8441 0f77 7777 2e65 7861 6d70 6c65 2e63 6f6d")).map_err(|e| format!("C.3.1 {:?}", e))?;
    if r.fields != vec![f(":method", "GET"), f(":scheme", "http"), f(":path", "/"), f(":authority", "www.example.com")] {
        return Err("C.3.1 fields".into());
    }
    let r = d.decode_block(&hx("8286 84be 5808 6e6f 2d63 6163 6865")).map_err(|e| format!("C.3.2 {:?}", e))?;
    if r.fields.last() != Some(&f("cache-control", "no-cache")) || d.size != 110 {
        return Err("C.3.2".into());
    }
    let r = d
        .decode_block(&hx("8287 85bf 400a 6375 7374 6f6d 2d6b 6579 0c63 7573 746f 6d2d 7661 6c75 65"))
        .map_err(|e| format!("C.3.3 {:?}", e))?;
    if r.fields.last() != Some(&f("custom-key", "custom-value")) || d.size != 164 {
        return Err("C.3.3".into());
    }
    // C.4 requests with Huffman
    let mut d = RefDecoder::new(4096);
    let r = d.decode_block(&hx("8286 8441 8cf1 e3c2 e5f2 3a6b a0ab 90f4 ff")).map_err(|e| format!("C.4.1 {:?}", e))?;
    if r.fields.last() != Some(&f(":authority", "www.example.com")) {
        return Err("C.4.1".into());
    }
    let r = d.decode_block(&hx("8286 84be 5886 a8eb 1064 9cbf")).map_err(|e| format!("C.4.2 {:?}", e))?;
    if r.fields.last() != Some(&f("cache-control", "no-cache")) {
        return Err("C.4.2".into());
    }
    // C.6 responses with Huffman, table limited to 256 (eviction)
    let mut d = RefDecoder::new(256);
    d.decode_block(&hx(
        "4882 6402 5885 aec3 771a 4b61 96d0 7abe 9410 54d4 44a8 2005 9504 0b81 66e0 82a6 2d1b ff6e 919d 29ad 1718 63c7 8f0b 97c8 e9ae 82ae 43d3",
    ))
    .map_err(|e| format!("C.6.1 {:?}", e))?;
    if d.size != 222 {
        return Err(format!("C.6.1 size {}", d.size));
    }
    let r = d.decode_block(&hx("4883 640e ffc1 c0bf")).map_err(|e| format!("C.6.2 {:?}", e))?;
    if r.fields[0] != f(":status", "307") || d.size != 222 {
        return Err("C.6.2".into());
    }
    let r = d
        .decode_block(&hx(
            "88c1 6196 d07a be94 1054 d444 a820 0595 040b 8166 e084 a62d 1bff c05a 839b d9ab 77ad 94e7 821d d7f2 e6c7 b335 dfdf cd5b 3960 d5af 2708 7f36 72c1 ab27 0fb5 291f 9587 3160 65c0 03ed 4ee5 b106 3d50 07",
        ))
        .map_err(|e| format!("C.6.3 {:?}", e))?;
    if r.fields[5] != f("set-cookie", "foo=ASDJKHQKBZXOQWEOPIUAXQWEOIU; max-age=3600; version=1") || d.size != 215 {
        return Err("C.6.3".into());
    }
    if huff_encode(b"www.example.com") != hx("f1e3 c2e5 f23a 6ba0 ab90 f4ff") {
        return Err("huff_encode".into());
    }
    Ok(())
}
