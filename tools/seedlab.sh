#!/bin/bash
# Tests seeded changes WITHOUT touching /repo: a scratch worktree of /repo (at its HEAD) plus a copy of the engine whose h2
# dependency points at that worktree, with their own build output, all under /tmp/seedlab (removed by `seedlab.sh clean`).
# Evidence and replays of these runs go to /tmp/seedlab/out, never to /verif.
#   tools/seedlab.sh setup                      (re)create the lab at /repo's HEAD and build it
#   tools/seedlab.sh test <patch.diff> <ID>...  apply the patch in the lab, run the quick checks, revert
#   tools/seedlab.sh clean
LAB=${LAB:-/tmp/seedlab}
case "$1" in
  setup)
    git -C /repo worktree remove --force $LAB/repo 2>/dev/null; rm -rf $LAB; mkdir -p $LAB/out
    git -C /repo worktree add --detach $LAB/repo HEAD -q || exit 2
    mkdir -p $LAB/engine; rsync -a --exclude target /verif/engine/ $LAB/engine/
    sed -i "s|path = \"/repo\"|path = \"$LAB/repo\"|" $LAB/engine/h2verif/Cargo.toml
    ( cd $LAB/engine && CARGO_NET_OFFLINE=true cargo build --release --offline 2>&1 | tail -2 )
    ;;
  test)
    patch=$2; shift 2
    rsync -a --exclude target --exclude Cargo.toml /verif/engine/h2verif/src/ $LAB/engine/h2verif/src/
    rsync -a /verif/engine/h2wire/src/ $LAB/engine/h2wire/src/
    git -C $LAB/repo checkout -q -- . ; git -C $LAB/repo apply $patch || { echo "patch does not apply"; exit 2; }
    ( cd $LAB/engine && CARGO_NET_OFFLINE=true cargo build --release --offline 2>&1 | grep -E "^error" -A8 | head -20 )
    for id in "$@"; do
      out=$(H2_REPO=$LAB/repo VERIF_OUT_DIR=$LAB/out $LAB/engine/target/release/h2verif check $id quick 2>&1); rc=$?
      n=$(echo "$out" | grep -c "^VIOLATION")
      if [ $rc -eq 1 ] && [ $n -gt 0 ]; then echo "$id: CAUGHT ($n; $(echo "$out" | grep -m1 'rule=' | sed 's/ :: .*//' | cut -c1-140))"; else echo "$id: MISSED (exit $rc) $(echo "$out" | grep -E 'tier=' | cut -c1-120)"; fi
    done
    git -C $LAB/repo checkout -q -- .
    ;;
  clean)
    git -C /repo worktree remove --force $LAB/repo 2>/dev/null; rm -rf $LAB
    ;;
  *) echo "usage: seedlab.sh setup | test <patch> <ID>... | clean"; exit 2;;
esac
