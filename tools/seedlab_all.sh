#!/bin/bash
# Regression of the machinery itself: every adopted seed in the lab (scratch worktree, /repo untouched), against the check named
# first in its meta.json "caught_by". Usage: tools/seedlab_all.sh [ids...]   (run tools/seedlab.sh setup first)
cd /verif
ids="$@"; [ -z "$ids" ] && ids=$(ls seeded)
for id in $ids; do
  prop=$(python3 -c "import json,re;m=json.load(open('seeded/$id/meta.json'));c=re.search(r'C\d\d',m['caught_by']);print(c.group(0) if c else m['breaks_property'])")
  r=$(tools/seedlab.sh test /verif/seeded/$id/patch.diff $prop 2>&1 | tail -1)
  echo "$id -> $r" | cut -c1-200
done
