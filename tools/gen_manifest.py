#!/usr/bin/env python3
"""Regenerates /verif/MANIFEST.json from the table below (kept in one place so the manifest is always valid)."""
import json, subprocess

props = [json.loads(l) for l in open('/verif/properties.jsonl')]

# property id -> claim
CLAIMS = {
 'C11': dict(
   text="Exhaustive differential enumeration (X3) of h2's real HPACK decoder and Huffman decoder against an independent RFC 7541 reference: all byte strings up to 3 (quick) / 4 (thorough) octets for Huffman, all symbol sequences with every padding, prefix integers over a boundary alphabet, all sequences of <=3 representations from a 71-item catalogue after 10 dynamic-table histories, each fed whole and at every 2-way and 3-way split through the resume protocol FramedRead uses.",
   note="Trusted: h2wire reference decoder (validated at setup against RFC 7541 Appendix C and 382 third-party encoder stories); inputs outside the enumerated domains are not covered.",
   tech="exhaustive enumeration of finite input domains against a reference model (differential), on the real decoder",
   design="3/C11"),
}

CLAIMS.update({
 'C01': dict(
   text="Deviation-bounded exhaustive schedule exploration (X1) of the real h2 client and the real h2 server joined by a simulated transport: for each scenario of a catalogue (header shapes incl. CONTINUATION, bodies from the boundary sizes, trailers, interim responses, push, windows 1/7, frame size 16385, send buffer 1/16/1024, vectored or plain writes, resets) every execution with 0, 1, 2 (quick) / 3 (thorough) deviations from the default schedule and transport answers is run to quiescence; API-level oracle (submitted vs received sequences per stream and direction, byte patterns, is_end_stream samples) plus wire-level cross-check with an independent frame parser and HPACK decoder. Besides the hand-written catalogue, a generated scenario set (covering array over 13 scenario dimensions: every pair, thorough every triple, of dimension values; 34 / 146 scenarios) is explored at deviation bound 1 (thorough 2) with the same judge.",
   note="Trusted: simulator (SimIo implements only the documented AsyncRead/AsyncWrite contract), h2wire reference parser/decoder. Content outside the scenario catalogue and executions beyond the completed deviation bound are not covered.",
   tech="stateless exhaustive exploration of bounded schedules / I/O chunkings of the real implementation (CHESS-style deviation bounding), oracle on every execution",
   design="3/C01"),
 'C02': dict(
   text="Same explorer (X1) on window-centred scenarios (receiver lowers / raises INITIAL_WINDOW_SIZE mid-stream, client second SETTINGS, shared connection window, capacity API, target window change): at every DATA frame written by either real endpoint an independent wire accountant checks the frame against stream and connection credit reconstructed from the wire exactly as the property states (ACK position in the sender's own output; WINDOW_UPDATE counted when its last byte was read by the sender's transport). Besides the hand-written catalogue, a generated scenario set (covering array over 13 scenario dimensions: every pair, thorough every triple, of dimension values; 34 / 146 scenarios) is explored at deviation bound 1 (thorough 2) with the same judge.",
   note="Trusted: wire accountant in monitor.rs. Window values outside the scenario catalogue, deeper deviation levels are not covered.",
   tech="stateless exhaustive exploration of bounded schedules of the real implementation with a wire-level reference accountant as invariant",
   design="3/C02"),
 'C04': dict(
   text="Same explorer (X1): the complete output of each real endpoint in every explored execution is fed to an RFC 9113 5.1 sender automaton (id order/parity, HEADERS first, nothing on idle, frames permitted after own END_STREAM / RST_STREAM, trailers end the stream, header-block contiguity, stream-0 vs stream frames) on scenarios with parked requests (MAX_CONCURRENT_STREAMS 1), window 0, resets and drops at every position, push, 30 KB headers, and identifier exhaustion from 2^31-5 / -3 / -1. Besides the hand-written catalogue, a generated scenario set (covering array over 13 scenario dimensions: every pair, thorough every triple, of dimension values; 34 / 146 scenarios) is explored at deviation bound 1 (thorough 2) with the same judge.",
   note="Peers are legal (both endpoints are h2). Frames mandated in answer to illegal input belong to C09.",
   tech="stateless exhaustive exploration of bounded schedules of the real implementation with a reference stream automaton on the wire",
   design="3/C04"),
 'C06': dict(
   text="Same explorer (X1) under a strict executor (a task is polled only after its waker fired; every waker is a flag owned by the explorer): every execution with <= 2/3 deviations runs to quiescence, where (a) all scripted operations must have completed, (b) a forced poll of every still-pending task and of both connection tasks must not make progress (lost wakeup otherwise), (c) quiescence must come within a horizon (livelock otherwise). Scenarios add capacity reservations, parked requests, pings, window changes in both directions. Besides the hand-written catalogue, a generated scenario set (covering array over 13 scenario dimensions: every pair, thorough every triple, of dimension values; 34 / 146 scenarios) is explored at deviation bound 1 (thorough 2) with the same judge.",
   note="Cooperating peer = the other real endpoint with applications that read, release and keep polling. Schedules beyond the completed deviation bound are not covered.",
   tech="stateless exhaustive exploration of bounded schedules under a controlled wake-only scheduler; quiescence oracle",
   design="3/C06"),
 'C17': dict(
   text="Same explorer (X1) on reset / drop scenarios (client or server, after 0/1/2 chunks, parked request, window 0, reset memory expiring at once; codes 0, 8, 2^32-1 quick / nine codes thorough): at most one RST_STREAM per stream ever, exactly one when required, caller's code, placement after HEADERS, nothing of the stream after it, other streams complete, peer handles report origin/kind/code exactly. Plus exhaustive enumeration (X3) of error codes (both half-words completely in quick, all 2^32 in thorough) through the real RST_STREAM/GOAWAY encode, parse and h2::Error mapping against the independent frame codec. Besides the hand-written catalogue, a generated scenario set (covering array over 13 scenario dimensions: every pair, thorough every triple, of dimension values; 34 / 146 scenarios) is explored at deviation bound 1 (thorough 2) with the same judge.",
   note="Trusted: simulator and h2wire. GOAWAY / I/O-failure surfacing on handles is judged by C07/C15.",
   tech="stateless exhaustive exploration of bounded schedules of the real implementation + exhaustive enumeration of the 32-bit code domain",
   design="3/C17"),
})

CLAIMS.update({
 'C10': dict(
   text="Explicit-state breadth-first search (X2) over the real hpack::Encoder, cloned per transition through the verif hook: events are every list of <= 2 (quick) / 3 (thorough) items from a 17-item alphabet built to force the table's paths (static full/name match, dynamic pseudo, same name/different value chains, sensitive, skip-value-index, names colliding in the robin-hood index modulo 8 and 16, value > 3/4 of the table, empty value, elided repeated names) and update_max_size(v); with limits {0,40,90,130} the canonical state space (index normalised by `inserted`) closes and is searched to fixpoint (exhaustive), with the default 4096 table it is depth-bounded. Every emitted block is decoded by the strict RFC 7541 reference and by h2's own decoder and compared with the submitted fields; reductions must be signalled at the start of the next block. Plus every CONTINUATION split limit through the real Headers::encode/Continuation::encode (X3). Plus an exhaustive sweep of every name / value length 0..600 (thorough 9000) for symbols of each Huffman code-length class, encoded before another field and again from the table.",
   note="Trusted: h2wire reference decoder; canonicalisation argument (behaviour depends on index+inserted only). Items outside the alphabet, deeper histories on the 4096-byte table not covered.",
   tech="explicit-state BFS to fixpoint over the real encoder with a reference decoder as oracle on every transition",
   design="3/C10"),
})

CLAIMS.update({
 'C12': dict(
   text="Exhaustive chunking enumeration on the real h2::Codec (unstable API) over the simulated transport. Write side: frame sequences (all eight emittable types, CONTINUATION splitting, payload sizes around the chain thresholds 256/1024 and the frame limit, vectored and plain writes, limits 16384/16385/2^24-1) are buffered and flushed under EVERY chunking for outputs <= 17 octets and under every chunking with <= 2 (quick) / 3 (thorough) cuts or Pendings (every offset up to 300 octets, structural offsets beyond) for longer ones; bytes must equal the whole-write output, which is parsed by the independent RFC 9113 parser + reference HPACK decoder and compared with the submitted frames and the size limit. Read side: reference-serialised frames of all ten types (padding, priority, unknown types/flags/settings, zero-length CONTINUATION) under every read chunking with <= k deviations must parse to the RFC reading. Oversize heads must yield FRAME_SIZE_ERROR after nine octets; T1 runs check every frame of both endpoints against the peer's acknowledged MAX_FRAME_SIZE.",
   note="Trusted: h2wire serializer/parser. h2 never emits PRIORITY (unimplemented!), covered on the parse side only.",
   tech="exhaustive enumeration of I/O chunkings (all compositions for short outputs, deviation-bounded for long ones) against a reference codec",
   design="3/C12"),
})

CLAIMS.update({
 'C08': dict(
   text="Exhaustive enumeration (X3) on the T2 topology (real endpoint, either role, against a scripted raw peer): in each of 32 stream/connection states the endpoint receives every frame of a systematic catalogue (type 0..10 x flag sets x declared/actual lengths incl. max+1 x stream ids incl. reserved bit x payload fills; ~54k executions quick, full product thorough), also under write back-pressure and with concurrent application calls (respond, send_data, reserve/release capacity, reset, drop), every sequence of 2 (quick) / 3 (thorough) events of the C09 catalogue (~200k), and handshakes / first frames cut at every offset, fed bytewise, and garbage prefaces. Oracle: no panic (incl. teardown), quiescence within 300 polls, self-wake run <= 8, polls + transport callbacks bounded linearly in the input, orderly outcome.",
   note="Deterministic work counters instead of clocks. HPACK/Huffman byte space is C11's; longer sequences and other payload contents not covered.",
   tech="exhaustive enumeration of (state x input) catalogues and byte chunkings against the real endpoint with a robustness oracle",
   design="3/C08"),
 'C09': dict(
   text="Exhaustive enumeration (X3) of (state x event) pairs on T2: 32 states per the stream life cycle in both roles (idle, open, half-closed either way, closed, locally reset remembered / forgotten, remotely reset, header block in progress, GOAWAY sent / received, reserved local / remote, request parked behind MAX_CONCURRENT_STREAMS, SETTINGS in flight, refused, push disabled) x ~78 events (1-4 raw frames: every type on the primary / an idle peer / an idle own stream / stream 0, size defects, flow-control overflows, header-block interleavings, padding, unknown types/flags/settings, push promises incl. empty fragment and promise-then-HEADERS). A reference classification computed from the wire history alone by RFC 9113 rules decides: connection error => GOAWAY with code; stream error => RST_STREAM or GOAWAY and a follow-up exchange completes; legal => no penalty, content delivered, follow-up completes; nothing of an illegal frame surfaces. In addition every event is injected again after every one and every two (thorough: three, budget permitting) preceding events that are legal or plain stream errors and leave the connection in service (quick: 2.1 M chains): the state catalogue is thereby extended by everything two further peer events can reach; the client application also polls push promises, pushed responses and their bodies.",
   note="Error codes are not compared. MAY/SHOULD and 7540/9113 differences are 'unspecified'. Reference classifier in c09.rs is hand-written from the RFC.",
   tech="exhaustive enumeration of a state x event product against a reference protocol automaton",
   design="3/C09"),
})

CLAIMS.update({
 'C13': dict(
   text="Exhaustive enumeration (X3) on T2 of a header-list grammar: a valid base message with every single defect and every pair of defects (each pseudo-header dropped / duplicated / emptied / after a regular field, wrong-direction and unknown pseudo-headers, the five connection-specific fields, TE values, upper-case names via raw HPACK, content-length syntax), for requests (real server), responses, responses to HEAD, interim responses, trailers and promised requests (real client), CONNECT / extended CONNECT shapes with and without ENABLE_CONNECT_PROTOCOL, every DATA length pattern {0,1,n-1,n,n+1} x <= 2 frames x END_STREAM placement against content-length, and every single-defect request with its header block cut into HEADERS+CONTINUATION at every offset. An RFC 9113 section 8 validity predicate decides: malformed => nothing returned as Ok and the stream/connection failed; body mismatch => Err, not a clean end; well-formed => delivered intact (so rejecting everything does not pass). Send side: every send call (request, response, informational, push, trailers both ways) with each forbidden / permitted field must be refused / accepted and nothing forbidden may reach the wire. Beyond pairs: every combination of up to 4 (thorough 5) defects for requests / responses / interim responses; every verdict again with the block Huffman-coded, incrementally indexed or both, and cut into HEADERS / PUSH_PROMISE + CONTINUATION at every offset for every message kind; after every request case a following well-formed request must be delivered intact.",
   note="Predicate hand-written from RFC 9113 8.1-8.5, RFC 8441. Empty :authority and status 101 are 'unspecified'. Open known findings: response / interim response without :status delivered as 200; trailers carrying pseudo-header fields delivered (see known_findings.json).",
   tech="exhaustive enumeration of an input grammar against a reference validity predicate, on the real endpoints",
   design="3/C13"),
})

CLAIMS['C02']['text'] += " In addition an explicit-state search (X2, iterative deepening with canonical-digest de-duplication, see C16) over the real client sending on two streams against a scripted peer (reserve / send / end / reset / poll_capacity, peer WINDOW_UPDATEs, SETTINGS window 0/65535 up and down, connection polls with open, budgeted (tail reclaimed from the codec) and blocked writes) runs the same accountant as an invariant in every state."
CLAIMS.update({
 'C16': dict(
   text="Explicit-state breadth-first search (X2; a state = the event history, re-executed on the real client; de-duplicated by a canonical digest of the scrubbed Debug text of the connection + stream-store snapshot hook + bytes in flight + monitor state as remaining credit) over two competing streams: reserve_capacity {0,7,10^6 (+1,16384)}, send_data {0,7,70000 (+1,16384)}, end, reset, drop, poll_capacity; peer WINDOW_UPDATE on connection / stream, SETTINGS INITIAL_WINDOW_SIZE {0,65535 (+1,7)}, RST_STREAM; connection polls with open / budgeted / blocked writes; configurations default and (stream window 7, max_send_buffer_size 16). Iterative deepening, only completed depths are claimed (quick 4, thorough deeper). Invariants in every state and an epilogue from every new state (usable capacity, free capacity reaches waiters, no unwoken capacity waiter).",
   note="Trusted: wire accountant; digest completeness (Debug text + snapshot hook; cross-checked by running without de-duplication at a smaller depth in the thorough tier).",
   tech="explicit-state BFS over the real implementation with canonical state hashing; invariants on every state, epilogue oracle from every new state",
   design="3/C16"),
})

CLAIMS.update({
 'C03': dict(
   text="Explicit-state breadth-first search (X2, canonical-digest de-duplication, iterative deepening; quick: depth 7, ~1 M executions) over the real server receiving on up to 3 streams from a scripted peer that stays inside the windows it sees: DATA plain / padded / END_STREAM, RST_STREAM, SETTINGS-ACK timing; application poll_data (holding what it read), release all / one octet, drop RecvStream, drop all handles, send_reset, respond, set_target_window_size up/down, set_initial_window_size up/down. Invariant in every state from the wire alone: peer-view windows never above the largest configured size (nor 2^31-1), no octet credited twice. Threshold-agnostic epilogue from every new state: release everything, let the peer use up the whole connection window through a fresh stream while the application reads without releasing, release all at once, quiesce - connection window back at its target and the carrier stream at the acknowledged initial window.",
   note="Scope: for a stream whose RecvStream was dropped while the stream stays open only the connection window is required to return; unreleased octets held when the RecvStream is dropped are returned by dropping the remaining handles.",
   tech="explicit-state BFS over the real implementation with canonical state hashing; wire-level window accountant as invariant, exhaust-and-release epilogue from every new state",
   design="3/C03"),
 'C05': dict(
   text="Explicit-state breadth-first search (X2) in both directions. Real client with 2-3 SendRequest clones against a scripted peer whose SETTINGS_MAX_CONCURRENT_STREAMS moves between 0, 1, 2 and unlimited at any time: request (parked when over the limit), poll_ready, peer response / RST_STREAM, client reset / drop, GOAWAY; invariant: no stream opened while as many as the acknowledged limit are open on the wire according to what the subject has itself sent and consumed; epilogue: no request parked while a slot is free, no poll_ready waiter left unwoken. Real server advertising 1 / 2 against a peer opening up to limit+2 streams and closing them by every path while the application responds / resets / drops / reads; invariant: active streams surfaced <= limit, a refused stream gets exactly one REFUSED_STREAM and never reaches accept(); epilogue: nothing in limbo, a probe stream is accepted whenever fewer than the limit are open (every close path frees its slot).",
   note="The monitor closes a stream at the earliest moment the subject can know, so its count is never above h2's own.",
   tech="explicit-state BFS over the real implementation with canonical state hashing; wire-level concurrency monitor as invariant, slot-recycling probe as epilogue",
   design="3/C05"),
})

CLAIMS.update({
 'C14': dict(
   text="Explicit-state breadth-first search (X2) over the real server with one open stream: peer SETTINGS from a 9-entry menu (empty, table size 0 / 8192, window 7 / 70000, frame size 16385 / 20000 + window, push off, header-list size + unknown id) up to 4 in a row, PINGs with 4 payloads (incl. the payloads h2 itself uses for shutdown and user pings) up to 3, stray SETTINGS ACK, stray PING ACK, peer ACK timing, DATA inside the window the peer is entitled to, WINDOW_UPDATE; application user ping, set_initial_window_size down / up, response with a 40 KB body; connection polls with open, budgeted (1 / 9 / 17 octets) and blocked writes. Invariants in every state from the wire: acks written <= SETTINGS received, PONG payloads a prefix of the PING payloads, every frame after an ACK obeys the acknowledged MAX_FRAME_SIZE / windows / ENABLE_PUSH, first header block after a lowered HEADER_TABLE_SIZE starts with the update. Epilogue: counts equal at quiescence, a stray SETTINGS ACK ended the connection with GOAWAY, no FLOW_CONTROL_ERROR before the peer's ACK of a lowered local window.",
   note="A SETTINGS ACK that is still in flight when the application queues a local change is indistinguishable from a genuine ACK for the endpoint and is not called stray (DESIGN.md 8).",
   tech="explicit-state BFS over the real implementation with canonical state hashing; wire-level ack/obedience monitors as invariants",
   design="3/C14"),
})

CLAIMS.update({
 'C18': dict(
   text="Explicit-state breadth-first search (X2) over the real server configured with tiny limits (2 concurrent streams, reset memory 2, pending-accept resets 2, library resets 3, header list 128, window 64, DATA budget 512) against a hostile scripted peer: open, open+RST_STREAM, oversized header lists, HEADERS / CONTINUATION without END_HEADERS, DATA 0 / 1 / 40 / padded, DATA and RST_STREAM on old streams, zero WINDOW_UPDATE (library resets), WINDOW_UPDATE / PRIORITY floods, PING, SETTINGS; application accepting or not (poll_closed), reading, responding, dropping; writes open or blocked; reset memory never / at once expiring. Invariant in every state read through the snapshot hook: stream records, buffered received events, queued frames within bounds computed from the limits plus what the application holds; connection Debug text bounded. In addition 15 attack loops are each run linearly for 3000 (quick) / 12000 (thorough) rounds (single deep executions, reported separately): retained state at the end must not exceed the state at half time, and with writes blocked input consumption must stop.",
   note="The long directed runs are single executions, not exploration; 'unbounded length' is decided by the bounded search plus these runs (DESIGN.md 4).",
   tech="explicit-state BFS over the real implementation with canonical state hashing; resource-bound invariants read through a snapshot hook; directed long runs",
   design="3/C18"),
 'C19': dict(
   text="Explicit-state breadth-first search (X2) over the real client (2-3 streams, two SendRequest clones; reset memory 'never expires' and 'expires at once'): request with / without body, END_STREAM, peer response (with / without END_STREAM), peer DATA END_STREAM, peer RST_STREAM, poll the response, read, client reset, drop of ResponseFuture / SendStream / RecvStream / a SendRequest clone in every order relative to connection polls, time passing (quick: depth 7, 1.2 M executions). Epilogue from every new state: both sides finish every stream, every stream handle is dropped, quiescence - then the snapshot hook must show no stream record beyond <= 2 remembered local resets (none once expired), both counters 0, empty buffers, no in-flight octets, the whole connection send window unassigned; then the last SendRequest is dropped and the connection must have been woken, send GOAWAY(NO_ERROR), shut the transport down and return Ok(()). Panics ('dangling store key', drop assertions) are violations. A third model starts from an exchange complete on the wire but unread; the client's stream window is 6 so that releasing a body crosses the WINDOW_UPDATE threshold.",
   note="Server-side release of records is covered by C18 / C05 models; this model is client-side because the idle-close clause is.",
   tech="explicit-state BFS over the real implementation with canonical state hashing; leak oracle read through a snapshot hook from every new state",
   design="3/C19"),
})

CLAIMS.update({
 'C15': dict(
   text="Explicit-state breadth-first search (X2) over the real endpoints against a scripted peer, both roles. Server with two accepted streams: graceful_shutdown, abrupt_shutdown(code), respond, push_request, handle drops; the peer opens further streams racing the GOAWAY, acknowledges the shutdown PING early or late, finishes its requests, sends its own GOAWAY (quick: depths 6-8 per model). Invariants in every state: last-stream-ids of emitted GOAWAYs never increase and are never below a stream already returned by accept(); after GOAWAY(L) peer streams above L are neither surfaced nor answered; push_request fails once the peer's GOAWAY was processed. Epilogue from every new state: graceful shutdown = GOAWAY(2^31-1), PING, after the ACK GOAWAY(last processed), every accepted stream answered, transport shut down, Ok(()). Client with two requests in flight: up to two peer GOAWAYs (last-stream-id 0/1/3/5/2^31-1, codes 0/2/0xdeadbeef, with/without debug data, never increasing), responses, EOF, new requests, poll_ready, response polls. Invariants: no send_request / poll_ready success and no new HEADERS once the GOAWAY was processed; streams above L fail with origin remote / kind GOAWAY / the peer's code and debug data. Epilogue: streams <= L complete when answered, nothing stays pending, the connection result carries the peer's code and debug data. Second half, deviation-bounded exploration (X1) of real client <-> real server: the server application requests graceful / abrupt shutdown after its n-th accept while further requests race the GOAWAY (three at once, parked, small windows, late readers, requests starting late); every execution with <= 2 (thorough 3) deviations in schedule / partial I/O / spurious Pending; the same rules judged from the wire and both API logs.",
   note="The reaction to a peer that raises its last-stream-id is unspecified and not part of the alphabet. Byte-level chunking of GOAWAY frames is covered by C09/C12, not here.",
   tech="explicit-state BFS over the real implementation with canonical state hashing, both roles against a scripted peer, epilogue from every new state; plus stateless deviation-bounded schedule exploration of client <-> server",
   design="3/C15"),
})

CLAIMS.update({
 'C07': dict(
   text="Deviation-bounded exhaustive exploration (X1) of the real client <-> real server pair under a strict wake-only executor. Deviations: at every transport call an injected write error / zero-length write / read error / EOF with in-flight octets lost / non-HTTP/2 octets / shutdown Pending or error (also after a partial write or read in the byte-offset pass); at every poll of a connection object the application dropping it instead; another runnable task first. The scenarios put every kind of wait in flight when the ending strikes: response futures, body and trailer reads (immediate and late readers), capacity waits, reset waits, requests parked for a concurrency slot, accept, user ping, graceful and abrupt user shutdown. For every execution with <= k deviations (quick k=3 without / k=2 with byte offsets), at quiescence: no livelock, no application task still waiting on a handle, both connection futures completed, and every message whose frames up to END_STREAM had all been handed to the receiving endpoint before the ending is delivered to its application completely and without error.",
   note="Clause 'complete messages are still delivered' is skipped when the ending is a write-side fault at the receiving endpoint itself (whether buffered octets count as received is ambiguous there) and for requests the server application was never handed. Applications that stop polling their handles are outside the model.",
   tech="stateless deviation-bounded schedule and fault exploration of the real implementation (CHESS-style iterative bounding over scheduling, transport-fault and drop points)",
   design="3/C07"),
})

CLAIMS.update({
 'C20': dict(
   text="(1) X4: explicit-state breadth-first search over the real client against a scripted peer in which every handle (SendRequest, SendStream, ResponseFuture, RecvStream + flow control, PingPong) lives on a second OS thread and every operation runs there while the connection is polled on the main thread; a baton makes the interleaving a recorded choice. Besides operations between polls, one operation of a 21-entry menu may run at any transport callback (write / flush / read) inside Connection::poll - exactly where the connection task has released its internal locks around I/O, including the window between staging a chained DATA frame and reclaiming its unwritten remainder (partial writes via a write budget); at most 2 such in-poll operations per execution, two initial states (fresh / mid-exchange), quick depth 3. In every state: no panic, no operation blocked on a library lock (watchdog = deadlock), DATA on the wire is a prefix of what send_data accepted in call order, data read is a prefix of what the peer sent, flow-control accountant and stream life-cycle automaton on the wire, receive windows never over-credited; epilogue from every new state: windows opened wide, every stream finished, then every accepted octet and END_STREAM is on the wire, nothing is left in the send buffer, an outstanding user ping completes. (2) loom, all interleavings without preemption bound, over the real text of src/proto/ping_pong.rs (lock-free user-ping state machine): send_ping vs the connection's poll (lost wakeup), pong vs poll_pong, connection drop vs poll_pong / send_ping, round trip followed by a second ping.",
   note="Real parallel runs on a multi-threaded runtime (the second half of the quantifier) would be sampling and are not part of the check. Interleavings are explored at lock-release granularity for the mutex-protected state (sound because all shared state of streams is behind the two mutexes) and at atomic-operation granularity for the ping state machine; in the loom build atomic-waker is a linearizable stand-in and plain stores are modelled as AcqRel swaps because loom 0.7 leaves a store that races with a read-modify-write unordered in modification order (false alarm observed, DESIGN.md section 8).",
   tech="explicit-state BFS over the real implementation with a controlled second thread (baton scheduling at lock-release points); loom exhaustive interleaving exploration of the real ping_pong.rs",
   design="3/C20"),
})

# later additions (kept as addenda so that each block above stays as first written)
GEN = "covering array over 13 scenario dimensions: every pair, thorough every triple, of dimension values; 34 / 146 scenarios"
GEN2 = "covering array over 13 scenario dimensions: every pair, thorough every triple, of dimension values; 35 / 173 scenarios, plus numeric boundary families: body sizes +-2 around 256 / 1024 / 16384 / 32768 / 65535 plain and vectored, windows one below / at / above the body size, a window used up exactly before a zero-length end, reservations 1..12 through a send buffer of 5"
for k in ('C01', 'C04', 'C06', 'C17'):
    CLAIMS[k]['text'] = CLAIMS[k]['text'].replace(GEN, GEN2)
FILL = " Write-buffer fill sweep (X3): the subject's codec is filled to every level around 'full' by blocking the transport, the control frames it then owes (%s) become due, the transport opens: each owed frame must appear exactly once, in order, and nothing else may change."
CLAIMS['C03']['text'] += FILL % "WINDOW_UPDATEs for released octets on streams and connection"
CLAIMS['C03']['text'] += " A second model with one stream whose request declares content-length 3: DATA frames that are stream errors (too long / ended too early) are flow-controlled all the same and must be credited back exactly once."
CLAIMS['C19']['text'] += " Write-buffer fill sweep for the client's idle close (GOAWAY(NO_ERROR) becoming due while the codec is full)."
CLAIMS['C05']['text'] += FILL % "REFUSED_STREAM resets for streams over the limit" + " Server model also: responding with a body and connection polls with the transport blocked."
CLAIMS['C05']['text'] += " Push, both ways: a client that advertises a limit of 1 receives two PUSH_PROMISEs and their responses (the second pushed stream must be refused, never surfaced as a second open stream; model shared with C19); a server whose peer allows 0 / 1 / 2 / many concurrent streams pushes up to 3-4 streams with open-ended responses, ends / resets / drops them, the peer resets them and moves its limit - the wire monitor counts the server's own (pushed) streams against the acknowledged limit, and once the limit is lifted every promise nobody cancelled has been announced, answered and ended."
CLAIMS['C14']['text'] += FILL % "SETTINGS ACKs and PING ACKs, one per frame received, in order"
CLAIMS['C15']['text'] += FILL % "the GOAWAY pair of a graceful shutdown, the GOAWAY of an abrupt one" + " The server model also lets the peer send WINDOW_UPDATE / DATA END_STREAM on the last accepted stream and on a stream racing the GOAWAY (a shutdown must not turn into a connection error)."
CLAIMS['C17']['text'] += FILL % "RST_STREAMs for application resets and for stream errors" + " GOAWAY surfacing on handles (code, origin, debug data) is judged here for the client model of C15."
CLAIMS['C08']['text'] += " Family (d): Pad Length sweeps - every pad length 0..=len+1 for DATA / HEADERS / PUSH_PROMISE payloads of several sizes, with and without PRIORITY."
CLAIMS['C18']['text'] += " Oversized header lists are also sent split across HEADERS + CONTINUATION inside fields; an explicit oracle flags an oversized list that is accepted; counters show that streams are actually accepted under the tiny limits (vacuity guard)."
CLAIMS['C19']['text'] += " Further models: a peer stream window of 2 so that END_STREAM is queued behind flow-control-blocked DATA (client and server), RST_STREAM after the peer's END_STREAM and crossing the endpoint's own reset; and the server side (peer opens up to two streams with / without body, DATA, END_STREAM, RST_STREAM; the application responds, ends, resets, pushes, reads, drops RecvStream / SendResponse / SendStream in every order relative to polls) with the same leak oracle."
CLAIMS['C19']['text'] += " T1 half (X1): twelve client <-> server scenarios (resets / drops either side, early response, push, parked requests, tiny windows); for every execution with <= 2 (thorough 3) deviations in schedule, partial I/O and spurious Pending, at quiescence the snapshot hook is read on BOTH endpoints (same leak oracle), then the parked SendRequest is dropped and both connections must close cleanly."
CLAIMS['C19']['note'] = "Eight X2 models (client: remember / expire / mid / blocked / push; server: remember / expire / blocked) and the T1 half share the tier budget; only completed depths / levels are claimed."
CLAIMS['C07']['text'] += " Scenarios include push, graceful and abrupt shutdown, parked requests, client- and server-side connection drops. The user-ping handle across the end of the connection is checked with loom over the real ping_pong.rs (models end-*: every interleaving of 'pong arrives, connection dropped' with poll_pong / send_ping, and a drop in every state of the handle): afterwards every operation must fail within three steps, never stay Pending."
CLAIMS['C20']['text'] += " (3) X4 idle-close models (threads-idle, threads-idle-mid): one SendRequest, up to two body-less requests answered completely by the peer; polling, reading and dropping of ResponseFuture / SendStream / RecvStream / the SendRequest itself on the second thread between polls or inside the connection's poll; from every state: everything is let go, nothing more arrives, and the connection must still send GOAWAY(NO_ERROR) and complete."
CLAIMS['C20']['text'] += " (4) X4 server model (threads-server): the peer opens up to two streams; SendResponse / RecvStream / SendStream of every accepted stream are moved to the second thread as soon as the connection hands them out; respond, send_data (1800 octets, chained and window-split), send_reset, push_request, read + release, drops - between polls or inside the connection's poll; same invariants and epilogue."
CLAIMS['C09']['text'] = CLAIMS['C09']['text'].replace("32 states per", "40 states per")
CLAIMS['C10']['note'] += " The length sweep uses single-symbol strings per Huffman code-length class."

CLAIMS['C20']['text'] += " (5) Lock-order monitor (hook H4, on in every check): h2's two mutexes are taken in rank order (stream state, then send buffer) and never twice by the same thread, in every execution explored - the deadlock-freedom clause does not rest on the schedules the baton can produce."
PROBE = " Every X2 epilogue ends with a generic lost-wake-up probe: at strict quiescence one forced poll of the connection must write nothing."
for k in ('C02', 'C03', 'C05', 'C14', 'C15', 'C16', 'C17', 'C18', 'C19', 'C20'):
    CLAIMS[k]['text'] += PROBE
CLAIMS['C18']['text'] += " Further loops: PING floods against a transport that takes a few partial writes and then stalls, 431-answered header lists with writes blocked, tiny DATA frames that the application reads at once (the connection must go on serving)."
CLAIMS['C09']['text'] += " Content rule: the chunk handed to the application is exactly the DATA frame's data (Pad Length octet and padding stripped, Pad Length 0 included). State c-push-limit-reached: the client's own concurrency limit reached by pushed streams."
CLAIMS['C12']['text'] += " Read cases with Pad Length 0 / 1 / 255 for DATA and HEADERS; header-block split sweep (every pair of cut offsets, three HPACK encodings)."
CLAIMS['C14']['text'] += " Local SETTINGS_HEADER_TABLE_SIZE sweep (X3): advertised size x leading size update in the peer's next header block, for the real server (request) and the real client (response), single updates and pairs of updates in one block (smallest-then-final, each held against the bound), and every update <= 4096 while the subject's SETTINGS are still unacknowledged (the default is then the bound in force, whatever smaller size was advertised), 250 cases, accepted iff within the bound in force."
CLAIMS['C14']['text'] += " The application may push (response kept open, ended later); the sender automaton of C04 runs as an invariant (nothing is ever sent on a stream whose promise was cancelled)."
WORK = " The quick tier is bounded by work (explicit depths / per-level execution caps, DESIGN.md 5), so that its coverage does not depend on machine speed; the thorough tier is bounded by time and claims only completed levels."
for k in CLAIMS:
    CLAIMS[k]['note'] += WORK

NOT_YET = "check not built yet (work in progress; DESIGN.md section 3 describes the planned harness)"
NA = {}

checks = []
for pid, c in sorted(CLAIMS.items()):
    checks.append({
        "property_id": pid,
        "quick_cmd": "./check %s quick" % pid,
        "thorough_cmd": "./check %s thorough" % pid,
        "evidence_file": "/verif/evidence/%s.json" % pid,
        "replay_cmd_template": "./check replay {path}",
        "engine": c.get('engine', 'h2verif'),
        "level_claimed": {"category": "model_checking", "text": c['text'], "design_ref": c['design']},
        "level_note": c['note'],
        "technique": c['tech'],
    })
na = [{"property_id": p['id'], "reason": NA.get(p['id'], NOT_YET)} for p in props if p['id'] not in CLAIMS]
hooks = subprocess.run(['git', '-C', '/repo', 'log', '--format=%h', '--grep=^verif hook'], capture_output=True, text=True).stdout.split()
m = {
 "version": 1,
 "setup_cmd": "./check setup",
 "hooks": {
   "guard": "cargo feature verif-hooks (Cargo.toml [features]; off by default)",
   "enable": "the harness crate depends on h2 = { path = \"/repo\", features = [\"unstable\", \"verif-hooks\"] }; every check runs `cargo build --release --offline` in /verif/engine first, which recompiles h2 from /repo's working tree",
   "baseline_off_cmd": "cd /repo && cargo test --workspace --no-fail-fast --offline",
   "source_commits": list(reversed(hooks)),
   "add_only": True,
 },
 "engines": [
   {"name": "h2verif", "path": "/verif/engine", "serves_properties": sorted(k for k, c in CLAIMS.items() if c.get('engine', 'h2verif') == 'h2verif'),
    "kind_free_text": "Rust harness around the real h2 crate: deterministic simulator hosting real client/server endpoints, exhaustive explorers (deviation-bounded schedules, explicit-state BFS, finite-domain enumeration), independent RFC 9113 / RFC 7541 oracles (h2wire)"},
   {"name": "pingloom", "path": "/verif/pingloom", "serves_properties": ["C07", "C20"],
    "kind_free_text": "loom models over the real text of /repo/src/proto/ping_pong.rs (build.rs redirects its atomics to loom); run by the C20 check (all models) and the C07 check (models end-*) of h2verif, one child process per model"},
 ],
 "checks": checks,
 "not_applicable": na,
 "notes": "DESIGN.md explains approach, bounds and oracles; known_findings.json lists genuine defects found (open and fixed); seeded/ holds independently written property-breaking changes used to test the checks.",
}
json.dump(m, open('/verif/MANIFEST.json', 'w'), indent=1)
print("MANIFEST.json: %d checks, %d not_applicable" % (len(checks), len(na)))
