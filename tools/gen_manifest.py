#!/usr/bin/env python3
"""Regenerates /verif/MANIFEST.json from the table below (kept in one place so the manifest is always valid)."""
import json, subprocess

props = [json.loads(l) for l in open('/verif/properties.jsonl')]

# property id -> claim
CLAIMS = {
 'C11': dict(
   text="Exhaustive differential enumeration (X3) of h2's real HPACK decoder and Huffman decoder against an independent RFC 7541 reference: all byte strings up to 3 (quick) / 4 (thorough) octets for Huffman, all symbol sequences with every padding, prefix integers over a boundary alphabet, all sequences of <=3 representations from a 71-item catalogue after 10 dynamic-table histories, each fed whole and at every 2-way and 3-way split through the resume protocol FramedRead uses.",
   note="Trusted: h2wire reference decoder (validated at setup against RFC 7541 Appendix C and 382 third-party encoder stories); inputs outside the enumerated domains are not covered.",
   tech="exhaustive enumeration of finite input domains against a reference model (differential), on the real decoder",
   design="3/C11"),
}

NOT_YET = "check not built yet (work in progress; DESIGN.md section 3 describes the planned harness)"
NA = {}

checks = []
for pid, c in sorted(CLAIMS.items()):
    checks.append({
        "property_id": pid,
        "quick_cmd": "./check %s quick" % pid,
        "thorough_cmd": "./check %s thorough" % pid,
        "evidence_file": "/verif/evidence/%s.json" % pid,
        "replay_cmd_template": "./check replay {path}",
        "engine": c.get('engine', 'h2verif'),
        "level_claimed": {"category": "model_checking", "text": c['text'], "design_ref": c['design']},
        "level_note": c['note'],
        "technique": c['tech'],
    })
na = [{"property_id": p['id'], "reason": NA.get(p['id'], NOT_YET)} for p in props if p['id'] not in CLAIMS]
hooks = subprocess.run(['git', '-C', '/repo', 'log', '--format=%h', '--grep=^verif hook'], capture_output=True, text=True).stdout.split()
m = {
 "version": 1,
 "setup_cmd": "./check setup",
 "hooks": {
   "guard": "cargo feature verif-hooks (Cargo.toml [features]; off by default)",
   "enable": "the harness crate depends on h2 = { path = \"/repo\", features = [\"unstable\", \"verif-hooks\"] }; every check runs `cargo build --release --offline` in /verif/engine first, which recompiles h2 from /repo's working tree",
   "baseline_off_cmd": "cd /repo && cargo test --workspace --no-fail-fast --offline",
   "source_commits": list(reversed(hooks)),
   "add_only": True,
 },
 "engines": [
   {"name": "h2verif", "path": "/verif/engine", "serves_properties": sorted(k for k, c in CLAIMS.items() if c.get('engine', 'h2verif') == 'h2verif'),
    "kind_free_text": "Rust harness around the real h2 crate: deterministic simulator hosting real client/server endpoints, exhaustive explorers (deviation-bounded schedules, explicit-state BFS, finite-domain enumeration), independent RFC 9113 / RFC 7541 oracles (h2wire)"},
 ],
 "checks": checks,
 "not_applicable": na,
 "notes": "DESIGN.md explains approach, bounds and oracles; known_findings.json lists genuine defects found (open and fixed); seeded/ holds independently written property-breaking changes used to test the checks.",
}
json.dump(m, open('/verif/MANIFEST.json', 'w'), indent=1)
print("MANIFEST.json: %d checks, %d not_applicable" % (len(checks), len(na)))
