#!/bin/bash
# Automated statement-deletion mutants in a scratch lab (never /repo): tools/mutlab.sh <lab-dir> <list-file>
# list-file lines: <file>:<line>   - the line is replaced by an empty statement; the lab engine is rebuilt; the given checks run.
LAB=$1; LIST=$2; shift 2
CHECKS=${CHECKS:-"C01 C02 C03 C04 C05 C06 C15 C16 C17 C19"}
cd /verif
while IFS=: read -r file line; do
  git -C $LAB/repo checkout -q -- .
  orig=$(sed -n "${line}p" $LAB/repo/$file)
  sed -i "${line}s/.*/;/" $LAB/repo/$file
  if ! ( cd $LAB/engine && CARGO_NET_OFFLINE=true cargo build --release --offline >/dev/null 2>&1 ); then echo "$file:$line BUILD-FAIL | $orig"; continue; fi
  caught=""
  for id in $CHECKS; do
    out=$(H2_REPO=$LAB/repo VERIF_OUT_DIR=$LAB/out timeout 300 $LAB/engine/target/release/h2verif check $id quick 2>&1); rc=$?
    if [ $rc -ne 0 ]; then caught="$id($(echo "$out" | grep -m1 -o 'rule=[A-Za-z0-9.-]*'))"; break; fi
  done
  if [ -n "$caught" ]; then echo "$file:$line CAUGHT $caught | $orig"; else echo "$file:$line SURVIVED | $orig"; fi
done < $LIST
git -C $LAB/repo checkout -q -- .
