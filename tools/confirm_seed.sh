#!/bin/bash
# usage: confirm_seed.sh <seed-dir> <worktree> <demo-test-file-name-without-.rs>
# Confirms independently: patch applies + builds, demo FAILS with patch, existing suite passes with patch (except the
# one known always-failing unit test), demo PASSES without patch. Writes <seed-dir>/confirm.log
SD=$1; WT=$2; DEMO=$3
export CARGO_TARGET_DIR=$WT/target CARGO_NET_OFFLINE=true
LOG=$SD/confirm.log
: > $LOG
cd $WT || exit 2
git checkout -q -- . ; git clean -fdq tests/h2-tests/tests
cp $SD/demo.rs tests/h2-tests/tests/$DEMO.rs
echo "== demo WITHOUT patch" >> $LOG
cargo test -p h2-tests --offline --test $DEMO >> $LOG.tmp 2>&1; echo "exit $?" >> $LOG; grep -E "^test result|^test .* (ok|FAILED)" $LOG.tmp >> $LOG; rm -f $LOG.tmp
git apply $SD/patch.diff || { echo "PATCH DOES NOT APPLY" >> $LOG; exit 1; }
echo "== demo WITH patch" >> $LOG
cargo test -p h2-tests --offline --test $DEMO >> $LOG.tmp 2>&1; echo "exit $?" >> $LOG; grep -E "^test result|^test .* (ok|FAILED)" $LOG.tmp >> $LOG; rm -f $LOG.tmp
rm tests/h2-tests/tests/$DEMO.rs
echo "== full suite WITH patch" >> $LOG
cargo test --workspace --no-fail-fast --offline > $LOG.suite 2>&1; echo "exit $?" >> $LOG
grep -E "^test .* FAILED" $LOG.suite | sort -u >> $LOG
grep -E "test result" $LOG.suite | awk '{p+=$4; f+=$6} END {print "passed",p,"failed",f}' >> $LOG
rm -f $LOG.suite
git checkout -q -- . ; git clean -fdq tests/h2-tests/tests
echo "== done" >> $LOG
