#!/usr/bin/env python3
"""adopt_seed.py <seed-id> <property> <caught_by> "<needs>" : copies a confirmed seed from /tmp/seeds/<id> to /verif/seeded/<id>/ with meta.json"""
import sys, os, shutil, json
sid, prop, caught, needs = sys.argv[1:5]
src = '/tmp/seeds/' + sid
dst = '/verif/seeded/' + sid
os.makedirs(dst, exist_ok=True)
for f in ['patch.diff', 'demo.rs', 'notes.md', 'confirm.log']:
    if os.path.exists(os.path.join(src, f)):
        shutil.copy(os.path.join(src, f), dst)
confirm = open(os.path.join(src, 'confirm.log')).read() if os.path.exists(os.path.join(src, 'confirm.log')) else ''
meta = {
    "id": sid,
    "breaks_property": prop,
    "needs_to_manifest": needs,
    "written_by": "independent sub-agent given only the property text and a scratch worktree",
    "confirmed": {
        "how": "tools/confirm_seed.sh in a scratch worktree: demo passes without the patch, fails with it; repository suite with the patch fails only the always-failing baseline unit test",
        "log": "confirm.log",
        "suite_ok": "passed 689 failed 1" in confirm,
        "demo_fails_with_patch": "== demo WITH patch\nexit 101" in confirm,
        "demo_passes_without_patch": "== demo WITHOUT patch\nexit 0" in confirm,
    },
    "checked_with": "git -C /repo apply seeded/%s/patch.diff && ./check %s quick ; git -C /repo checkout -- ." % (sid, prop),
    "caught_by": caught,
}
json.dump(meta, open(os.path.join(dst, 'meta.json'), 'w'), indent=1)
print(json.dumps(meta['confirmed']))
