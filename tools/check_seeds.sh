#!/bin/bash
# Regression of the machinery itself: applies every adopted seed to /repo in turn, runs the quick check of the property it
# breaks, and reverts. Prints CAUGHT / MISSED per seed. usage: tools/check_seeds.sh [seed-id ...]
cd /verif
ids="$@"; [ -z "$ids" ] && ids=$(ls seeded)
for s in $ids; do
  p=$(python3 -c "import json;print(json.load(open('/verif/seeded/$s/meta.json'))['breaks_property'])")
  if ! git -C /repo apply --check /verif/seeded/$s/patch.diff 2>/dev/null; then echo "$s ($p): PATCH DOES NOT APPLY to the current tree"; continue; fi
  git -C /repo apply /verif/seeded/$s/patch.diff
  out=$(./check $p quick 2>&1); rc=$?
  git -C /repo checkout -- .
  n=$(echo "$out" | grep -c "^VIOLATION")
  if [ $rc -eq 1 ] && [ $n -gt 0 ]; then echo "$s ($p): CAUGHT ($n violations; $(echo "$out" | grep -m1 'rule=' | sed 's/ :: .*//' | cut -c1-120))"; else echo "$s ($p): MISSED (exit $rc)"; fi
done
git -C /verif clean -fdq replays
git -C /verif checkout -- evidence 2>/dev/null
