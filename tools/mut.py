#!/usr/bin/env python3
"""Apply a textual mutation to /repo, run quick checks, revert.  usage: mut.py <file> <old> <new> <ID> [<ID>...]"""
import subprocess, sys
f, old, new, ids = sys.argv[1], sys.argv[2], sys.argv[3], sys.argv[4:]
p = '/repo/' + f
s = open(p).read()
if s.count(old) != 1:
    print("pattern occurs %d times" % s.count(old)); sys.exit(2)
open(p, 'w').write(s.replace(old, new, 1))
try:
    for i in ids:
        tier = 'quick'
        if ':' in i:
            i, tier = i.split(':')
        r = subprocess.run(['/verif/check', i, tier], capture_output=True, text=True)
        lines = [l for l in (r.stdout + r.stderr).splitlines() if 'VIOLATION' in l or 'rule=' in l or 'tier=' in l or 'error' in l.lower()]
        print("== %s exit=%d" % (i, r.returncode))
        print("\n".join(lines[:14]))
finally:
    subprocess.run(['git', '-C', '/repo', 'checkout', '--', f])
