#!/bin/bash
# Runs the repository's own test suite (hooks off) and prints a summary. The one test listed in BASELINE.json as
# always failing (recv::tests::clear_recv_buffer_caps_capacity_before_overflow) is expected to fail.
cd /repo && cargo test --workspace --no-fail-fast --offline > /tmp/repo-tests.log 2>&1
echo "cargo exit $?" >> /tmp/repo-tests.log
grep -E "^test .* FAILED" /tmp/repo-tests.log | sort -u
grep -E "test result" /tmp/repo-tests.log | awk '{p+=$4; f+=$6} END {print "passed",p,"failed",f}'
