#!/bin/bash
# Runs the repository's own test suite (hooks off) and prints a summary. The one test listed in BASELINE.json as
# always failing (recv::tests::clear_recv_buffer_caps_capacity_before_overflow) is expected to fail. Memory is capped so
# that a test that stops terminating cannot exhaust the machine. Expected summary: "passed 689 failed 1".
cd /repo && (ulimit -v 8000000; timeout 1500 cargo test --workspace --no-fail-fast --offline > /tmp/repo-tests.log 2>&1; echo "cargo exit $?" >> /tmp/repo-tests.log)
grep -E "^test .* FAILED|signal|didn't exit" /tmp/repo-tests.log | sort -u | head
grep -E "test result" /tmp/repo-tests.log | awk '{p+=$4; f+=$6} END {print "passed",p,"failed",f, (p==689 && f==1) ? "AS-EXPECTED" : "UNEXPECTED"}'
